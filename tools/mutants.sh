#!/bin/bash
# usage: tools/mutants.sh <dir with Cxx/{A,B}/patch.diff> [props...]  -- applies each patch to /repo, runs the check, reverts
base=$1; shift
props=${@:-C01 C02 C03 C04 C05 C06 C07 C08 C09 C10 C11 C12 C13 C14 C15 C16 C17 C18 C19 C20}
cd /verif
for p in $props; do
  for m in $base/$p*/ ; do
    for v in A B ""; do
      pd=$m/$v/patch.diff
      [ -f "$pd" ] || pd=$m/out/$v/patch.diff
      [ -f "$pd" ] || continue
      if ! git -C /repo apply --check "$pd" 2>/dev/null; then echo "$p $v: patch does not apply"; continue; fi
      git -C /repo apply "$pd"
      out=$(timeout 900 ./check $p 2>&1); rc=$?
      git -C /repo checkout -- . ; git -C /repo clean -fdq
      v1=$(echo "$out" | grep -c '^VIOLATION')
      echo "$p ${v:-.} rc=$rc $(echo "$out" | grep '^VIOLATION' | head -1) | $(echo "$out" | grep -v '^VIOLATION' | tail -4 | tr '\n' ' ' | cut -c1-400)"
    done
  done
done

#!/usr/bin/env python3
"""Regenerate /verif/MANIFEST.json from lean/Props/registry.json and the table below."""
import json, os

VERIF = os.path.dirname(os.path.dirname(os.path.abspath(__file__)))
reg = json.load(open(os.path.join(VERIF, "lean", "Props", "registry.json")))
props = [json.loads(l) for l in open(os.path.join(VERIF, "properties.jsonl"))]

TEXT = {
    "proof": "Lean 4 theorems about the executable model of the library (lean/Model), stated for every input/definition/schedule the property quantifies over and accepted by the kernel (no sorry, axioms audited on every run); the model is tied to /repo on every run by regenerated source facts (Tie obligations) and by a differential correspondence run of the compiled model against the real library; a per-property oracle searches the real library for a concrete failing input.",
    "translation_validation": "The hand-written Lean model is tied to /repo on every run (regenerated source facts + differential correspondence of the compiled model against the real library on generated cases, compared on the property's projection); the property theorems about the model are not complete yet, so the claim is the validated correspondence plus the oracle search, not a proof.",
}

NOTE = ("Trusted: Lean kernel (axioms ⊆ propext, Classical.choice, Quot.sound); the hand-written model; factgen + Tie expectations; "
        "the Go harness (generator, runner, comparator) and the hex line protocol; strconv.ParseFloat/strings.ToLower as parameters; "
        "for DAG properties the Go memory model and 'every started task returns'. Generator quality bounds what the correspondence leg sees.")

checks = []
na = []
for p in props:
    pid = p["id"]
    r = reg.get(pid)
    if not r or not r.get("claimed", True):
        na.append({"property_id": pid, "reason": (r or {}).get("reason", "check under construction in this round")})
        continue
    level = r.get("level", "translation_validation")
    checks.append({
        "property_id": pid,
        "quick_cmd": "./check %s --tier quick" % pid,
        "thorough_cmd": "./check %s --tier thorough" % pid,
        "evidence_file": "evidence/%s.json" % pid,
        "replay_cmd_template": "./check replay {path}",
        "engine": "lean-model",
        "level_claimed": {"category": level, "text": TEXT[level] + " " + r.get("level_text", ""), "design_ref": "DESIGN.md section 6 (%s)" % pid},
        "level_note": NOTE + " " + r.get("note", ""),
        "technique": r.get("technique", "Lean 4 theorems over a hand-written executable model + regenerated-fact tie + differential correspondence against the real library"),
    })

m = {
    "version": 1,
    "setup_cmd": "./check setup",
    "hooks": {
        "guard": "verif",
        "enable": "go build -tags verif (the harness module replaces github.com/DavidGamba/go-getoptions with /repo)",
        "baseline_off_cmd": "for m in . ./internal/completion/test; do (cd /repo/$m && GOFLAGS=-mod=mod GOPROXY=off GOSUMDB=off go test -json -vet=off -count=1 -timeout 25m ./...); done",
        "source_commits": ["c7ff168", "2ddb250"],
        "add_only": True,
    },
    "engines": [{
        "name": "lean-model", "path": "lean/", "serves_properties": [c["property_id"] for c in checks],
        "kind_free_text": "Lean 4 executable model (lean/Model), property theorems (lean/Props), regenerated facts (lean/Generated, lean/Tie), compiled driver (lean/Driver) and Go correspondence harness (harness/)",
    }],
    "checks": checks,
    "not_applicable": na,
    "notes": "quick: regenerated facts + Tie obligations + theorem build and axiom audit + ~160k differential cases per parser property / 48k controlled runs per DAG property (8 workers); thorough: 4M cases / 1.2M runs, 16 workers, leanchecker, race-detector leg (C13, C15), statement coverage of the library under the run (reported in the evidence). VERIF_SEED selects the PRNG seed. The deciding method of every check is the Lean proof (level proof); the differential runs tie the model to /repo and search for the failing input.",
}
json.dump(m, open(os.path.join(VERIF, "MANIFEST.json"), "w"), indent=1, ensure_ascii=False)
print("checks:", len(checks), "not_applicable:", len(na))

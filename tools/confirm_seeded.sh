#!/bin/bash
# Confirm sub-agent mutants and store them under /verif/seeded/<id>/ :
#   1. scratch worktree of /repo HEAD (outside /repo and /verif), 2. demo passes on the clean tree,
#   3. patch applies, builds, the full suite passes, 4. demo fails with the patch,
#   5. the quick check of the property, run against /repo with the patch applied, reports a VIOLATION.
# usage: tools/confirm_seeded.sh <Cxx> <A|B> <patch> <demo dir> <notes>
set -u
export GOFLAGS=-mod=mod GOPROXY=off GOSUMDB=off GOTOOLCHAIN=local
prop=$1; var=$2; patch=$3; demo=$4; notes=$5
id=$prop-$var
sw=/tmp/seedwt-$id
out=/verif/seeded/$id
rm -rf $sw $out; mkdir -p $out
git -C /repo worktree add --detach $sw HEAD -q || exit 2
cp -r $demo $sw-demo
sed -i "s#=> /tmp/mut[0-9]*/[A-Z0-9]*/wt#=> $sw#" $sw-demo/go.mod
cp /repo/go.sum $sw-demo/go.sum 2>/dev/null
tags=""; grep -q "tags verif" $(dirname $patch)/RUN.md 2>/dev/null && tags="-tags verif"
rundemo() {
  if ls $sw-demo/*_test.go >/dev/null 2>&1; then
    (cd $sw-demo && timeout 300 go test $tags -count=1 ./... >/tmp/seed-demo.log 2>&1); echo $?
  else
    (cd $sw-demo && timeout 300 go run $tags . >/tmp/seed-demo.log 2>&1); echo $?   # the demo is a program
  fi
}
clean_rc=$(rundemo)
applies=0; git -C $sw apply $patch 2>/dev/null && applies=1
build_rc=-1; suite_rc=-1; mut_rc=-1
if [ $applies = 1 ]; then
  (cd $sw && go build ./... >/dev/null 2>&1); build_rc=$?
  (cd $sw && go test -vet=off -count=1 ./... >/tmp/seed-suite.log 2>&1); suite_rc=$?
  mut_rc=$(rundemo)
fi
demo_tail=$(tail -5 /tmp/seed-demo.log | tr '\n' ' ' | cut -c1-400)
git -C /repo worktree remove --force $sw; rm -rf $sw-demo
# the framework's own check against the mutant
check_rc=-1; vline=""
if [ $applies = 1 ]; then
  git -C /repo apply $patch
  o=$(cd /verif && timeout 1200 ./check $prop 2>&1); check_rc=$?
  git -C /repo checkout -- . ; git -C /repo clean -fdq
  vline=$(echo "$o" | grep '^VIOLATION' | head -1)
  what=$(echo "$o" | grep -v '^VIOLATION' | tail -6 | tr '\n' ' ' | cut -c1-700)
fi
cp $patch $out/patch.diff
cp -r $demo $out/demo
[ -f "$notes" ] && cp $notes $out/NOTES.md
python3 - "$prop" "$id" "$clean_rc" "$applies" "$build_rc" "$suite_rc" "$mut_rc" "$check_rc" "$vline" "${what:-}" "$demo_tail" <<'EOF'
import json, sys, re
prop, id_, clean, applies, build, suite, mut, chk, vline, what, demo_tail = [a.encode("utf-8", "replace").decode("utf-8") for a in sys.argv[1:12]]
notes = ""
try:
    notes = open(f"/verif/seeded/{id_}/NOTES.md").read()
except Exception:
    pass
meta = {
    "id": id_, "property": prop,
    "source": "fresh sub-agent given only the property text and its own scratch worktree",
    "needs_to_manifest": (re.sub(r"\s+", " ", notes)[:900] if notes else ""),
    "confirmed": {
        "demo_passes_on_clean_tree": clean == "0",
        "patch_applies_to_repo_head": applies == "1",
        "builds_with_patch": build == "0",
        "existing_suite_passes_with_patch": suite == "0",
        "demo_fails_with_patch": mut not in ("0", "-1"),
        "demo_output_with_patch": demo_tail,
    },
    "ran": [
        "git worktree add --detach /tmp/seedwt-<id> HEAD; demo with replace => that worktree: go test -count=1 ./...",
        "git apply patch.diff; go build ./...; go test -vet=off -count=1 ./... ; demo again",
        "git -C /repo apply patch.diff; ./check %s (quick); git -C /repo checkout -- ." % prop,
    ],
    "framework": {"quick_check_exit": int(chk), "violation_line": vline, "report": what},
}
json.dump(meta, open(f"/verif/seeded/{id_}/meta.json", "w"), indent=1, ensure_ascii=False)
ok = clean == "0" and applies == "1" and build == "0" and suite == "0" and mut not in ("0", "-1")
print(id_, "CONFIRMED" if ok else "NOT-CONFIRMED", "clean=%s applies=%s build=%s suite=%s demo_with_patch=%s" % (clean, applies, build, suite, mut),
      "| check rc=%s %s" % (chk, vline))
EOF

#!/usr/bin/env python3
"""Register every theorem of lean/Props/Cxx.lean in lean/Props/registry.json (names are audited on every run)."""
import json, re, os, glob
VERIF = os.path.dirname(os.path.dirname(os.path.abspath(__file__)))
p = os.path.join(VERIF, "lean", "Props", "registry.json")
reg = json.load(open(p))
for f in sorted(glob.glob(os.path.join(VERIF, "lean", "Props", "C*.lean"))):
    pid = os.path.basename(f)[:-5]
    src = open(f).read()
    ns = "GoModel"
    names = []
    cur = []
    for line in src.split("\n"):
        m = re.match(r"namespace\s+(\S+)", line)
        if m:
            cur = m.group(1).split(".")
        m = re.match(r"end\s+(\S+)", line)
        m = re.match(r"theorem\s+(\S+)", line)
        if m:
            names.append(".".join(cur + [m.group(1)]))
    reg.setdefault(pid, {"tie": [], "assumptions": []})
    reg[pid]["theorems"] = names
    print(pid, len(names))
json.dump(reg, open(p, "w"), indent=1)

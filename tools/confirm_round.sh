#!/bin/bash
# usage: tools/confirm_round.sh <base dir, e.g. /tmp/mut7> <ids...>   (id = C01M -> seeded/C01-M)
# Confirms each finished sub-agent change (tools/confirm_seeded.sh) one after another; /repo is patched only while its check runs.
base=$1; shift
for id in "$@"; do
  d=$base/$id
  prop=${id:0:3}; var=${id:3}
  [ -f $d/out/patch.diff ] || { echo "$id: no patch yet"; continue; }
  [ -d /verif/seeded/$prop-$var ] && { echo "$id: already there"; continue; }
  git -C $d/wt checkout -- . 2>/dev/null; git -C $d/wt clean -fdq 2>/dev/null
  /verif/tools/confirm_seeded.sh $prop $var $d/out/patch.diff $d/out/demo $d/out/NOTES.md
done

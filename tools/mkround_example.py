import json,os,subprocess
props={}
for l in open('/verif/properties.jsonl'):
    p=json.loads(l); props[p['id']]=p
themes={
'U':"""THEME for your change — *one clause, one configuration*: re-read the property statement and its quantifier and pick the clause that is easiest to overlook (a second sentence, a parenthesis, an "in every mode", "at every command level", "for every option kind", "bash and zsh", "serial and parallel" …). Break only that clause, and only in ONE corner of the configuration space the quantifier ranges over: one of the three single-dash modes, one unknown-option mode, require-order on, one option kind (an *Optional kind, a map, an increment, a float slice), a command two or more levels below the root, an option inherited from a parent rather than declared locally, an alias rather than the name, zsh rather than bash, an attached `=value` rather than a detached value, an empty string or a lone `-` as a value, a retry rather than the first attempt, serial rather than parallel, a task added through a TaskMap … Everything outside that corner — in particular every configuration the existing tests use — behaves exactly as before.""",
'V':"""THEME for your change — *the glue around the core*: leave the main argument loop / the scheduler loop alone and put the bug into the code around it: the typed conversions and `Save` of internal/option, the `*Var` and slice/map definers and their defaults, `GetEnv` reading, the option-table bookkeeping when commands are created (`NewCommand`, inheritance, `UnsetOptions`, `HelpCommand`, `SetCommandFn`), `Parse` assembling its result after the loop, `Dispatch` choosing what to call and what to hand over, the help renderer of internal/help (padding, wrapping, headers, which entries are listed), the completion entry point (`COMP_LINE` splitting, what is printed, exit), the text templates, internal/sliceiterator, in ./dag the graph construction, `Validate`, `DepthFirstSort`, error types and their `Error()` / `Is` / `Unwrap`, retries, output buffering. The change should look like a local clean-up or robustness fix of such a helper and be wrong for particular data only (a particular length, a non-ASCII or empty string, a negative or zero number, a second call, a particular combination of two modifiers).""",
}
for pid,p in props.items():
    for v in 'UV':
        d=f'/tmp/mut11/{pid}{v}'
        os.makedirs(d+'/out',exist_ok=True)
        subprocess.run(['git','-C','/repo','worktree','add','--detach',d+'/wt','HEAD','-q'],check=True)
        prompt=f"""You are helping to evaluate a verification framework by writing ONE realistic, subtle bug ("seeded change") for a Go library. Everything you need is in your scratch directory {d}/ : {d}/wt is a private git worktree of the library DavidGamba/go-getoptions (a command-line option parser with subcommands, abbreviations, bundling modes, shell completion, plus a small parallel DAG task runner in ./dag). Work ONLY inside {d}/ — never read, list or modify /repo or /verif or other directories under /tmp/mut11. There is no network. In every shell command first run: export GOFLAGS=-mod=mod GOPROXY=off GOSUMDB=off GOTOOLCHAIN=local   (ignore any conda warnings the shell prints). Never use `git stash` (it is shared with other worktrees); keep your change as a diff file and restore with `git checkout -- .`.

The semantic property your change must break (this is all you get):

{json.dumps(p, indent=1, ensure_ascii=False)}

Your task: write a change to the library's non-test Go source in {d}/wt that makes the library violate this property, while
 1. it still compiles (cd {d}/wt && go build ./...),
 2. the ENTIRE existing test suite, unedited, still passes with your change (cd {d}/wt && go test -vet=off -count=1 ./...  — all packages must be ok; you may not edit, add or delete any *_test.go or testdata in wt),
 3. it reads like a plausible patch a maintainer could have written in good faith (a refactoring, an optimisation, a small feature, a clean-up) — no dead giveaways, no comments saying it is a bug, no special-casing of magic strings,
 4. it needs something specific to manifest, not something ordinary use would expose at once.

{themes[v]}

Do not touch files named verif_hooks.go / verif_nohooks.go or lines calling verifEvent(...) (build-tag-guarded instrumentation; leave them exactly as they are and keep calling them at the same points).

Read the relevant code first (the property's "anchors" tell you where), understand how the existing tests constrain it (run them often), then design the change. Prefer changes whose failing input is small but unlikely to be in a hand-written test. The violation must be a violation of THIS property as stated (re-read the statement before you finish), observable through the public API.

Deliverables, all under {d}/out/ :
 - patch.diff : output of `git -C {d}/wt diff` (library files only; must apply cleanly with `git apply` to an unmodified checkout).
 - demo/ : a standalone Go module that demonstrates the violation through the PUBLIC API only: go.mod containing
       module demo
       go 1.21
       require github.com/DavidGamba/go-getoptions v0.0.0
       replace github.com/DavidGamba/go-getoptions => {d}/wt
   and demo_test.go with one or more tests that PASS on the unmodified library and FAIL with your patch applied (run with: cd {d}/out/demo && cp {d}/wt/go.sum . ; go test -count=1 ./...). The test must assert what the property states (not an incidental detail), must be deterministic (for DAG properties control the interleaving yourself with channels so that the failure shows on every run, within a few seconds), and must not depend on timing luck.
 - NOTES.md : what you changed and where, why it looks fine, why the property is broken, exactly what is needed for the bug to manifest, and the minimal failing input / call sequence / interleaving.
 - RUN.md : the commands you ran and their results: suite with patch (all ok), demo without patch (PASS), demo with patch (FAIL, with the failure output).
Verify both directions yourself before finishing. At the very end leave the worktree UNPATCHED (git -C {d}/wt checkout -- . ; no untracked files) — the patch lives only in out/patch.diff.

Your final message should be a 5-line summary: files touched, the trigger, the minimal failing input, and confirmation of the three runs.
"""
        open(d+'/PROMPT.md','w').write(prompt)
print('ok')
#!/bin/bash
# usage: tools/benign_round.sh <base dir> <out name under seeded/> <ids...>
# Behaviour-preserving refactorings written by sub-agents: each is applied to /repo, the quick check of its property
# is run (expected: exit 0, no VIOLATION line), and /repo is restored.
set -u
export GOFLAGS=-mod=mod GOPROXY=off GOSUMDB=off GOTOOLCHAIN=local
base=$1; name=$2; shift 2
for id in "$@"; do
  d=$base/$id; prop=${id:0:3}
  [ -f $d/out/patch.diff ] || { echo "$id: no patch"; continue; }
  out=/verif/seeded/$name/$id; rm -rf $out; mkdir -p $out
  sw=/tmp/benwt-$id; rm -rf $sw
  git -C /repo worktree add --detach $sw HEAD -q || continue
  applies=0; build=-1; suite=-1
  if git -C $sw apply $d/out/patch.diff 2>/dev/null; then
    applies=1
    (cd $sw && go build ./... >/dev/null 2>&1); build=$?
    (cd $sw && go test -vet=off -count=1 ./... >/dev/null 2>&1); suite=$?
  fi
  lines=$(grep -c '^[+-][^+-]' $d/out/patch.diff)
  git -C /repo worktree remove --force $sw
  rc=-1; vline=""; rep=""
  if [ $applies = 1 ] && [ $build = 0 ] && [ $suite = 0 ]; then
    git -C /repo apply $d/out/patch.diff
    o=$(cd /verif && timeout 1500 ./check $prop 2>&1); rc=$?
    git -C /repo checkout -- . ; git -C /repo clean -fdq
    vline=$(echo "$o" | grep '^VIOLATION' | head -1)
    rep=$(echo "$o" | grep -v '^VIOLATION\|^WARNING' | tail -5 | tr '\n' ' ' | cut -c1-900)
  fi
  cp $d/out/patch.diff $out/; [ -f $d/out/NOTES.md ] && cp $d/out/NOTES.md $out/
  python3 - "$id" "$prop" "$applies" "$build" "$suite" "$lines" "$rc" "$vline" "$rep" "$name" <<'PY'
import json, sys
id_, prop, applies, build, suite, lines, rc, vline, rep = [a.encode("utf-8", "replace").decode("utf-8") for a in sys.argv[1:10]]
meta = {"id": id_, "property": prop, "kind": "behaviour-preserving refactoring written by a fresh sub-agent (property text + scratch worktree only)",
        "changed_lines": int(lines), "applies": applies == "1", "builds": build == "0", "suite_passes": suite == "0",
        "framework": {"quick_check_exit": int(rc), "violation_line": vline, "report": rep}}
import os
name = os.environ.get("BENIGN_NAME", "")
json.dump(meta, open(f"/verif/seeded/{sys.argv[10] if len(sys.argv) > 10 else name}/{id_}/meta.json", "w"), indent=1, ensure_ascii=False)
print(id_, "applies=%s build=%s suite=%s lines=%s | check rc=%s %s" % (applies, build, suite, lines, rc, vline))
PY
done
